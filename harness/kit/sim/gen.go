package sim

import (
	"math/rand"
)

// GenOpts biases RandomStackCfg.
type GenOpts struct {
	NumReqs     int
	AllowDRAM   bool
	AllowBanked bool
	ForceWB     bool   // at least one write-back level
	ForceCache  bool   // at least one cache level
	NoROB       bool
	ZeroLat     bool   // allow DirLatency/BankLatency == 0 on write-through caches
	MemKind     string // force memory kind
	MaxDrivers  int
	RspStall    bool // a third of the drivers are slow requesters (RspStallPct 30-90)
	NoLevels    bool // drivers sit directly on the memory
}

func pick[T any](rng *rand.Rand, xs ...T) T { return xs[rng.Intn(len(xs))] }

// RandomStackCfg draws a small, hostile hierarchy: tiny caches so that
// evictions, MSHR merges and back-pressure happen within a few hundred
// requests.
func RandomStackCfg(rng *rand.Rand, o GenOpts) StackCfg {
	var cfg StackCfg
	shapes := [][]string{
		{}, {"wb"}, {"wX"}, {"wX", "wb"}, {"rob"}, {"rob", "wb"}, {"rob", "wX", "wb"}, {"wb", "wb"}, {"rob", "wX"}, {"wX", "wX"},
	}
	var shape []string
	for {
		shape = shapes[rng.Intn(len(shapes))]
		if o.NoLevels {
			shape = shapes[0]
		}
		hasWB, hasCache, hasROB := false, false, false
		for _, k := range shape {
			if k == "wb" {
				hasWB, hasCache = true, true
			}
			if k == "wX" {
				hasCache = true
			}
			if k == "rob" {
				hasROB = true
			}
		}
		if (o.ForceWB && !hasWB) || (o.ForceCache && !hasCache) || (o.NoROB && hasROB) {
			continue
		}
		break
	}
	log2 := uint64(pick(rng, 4, 5, 6, 6, 6, 7))
	topLog2 := log2
	for i, k := range shape {
		lc := LevelCfg{Kind: k}
		if k == "wX" {
			lc.Kind = pick(rng, "wa", "we", "wt")
		}
		if lc.Kind != "rob" {
			// block size grows (or stays) towards memory
			lc.Log2Blk = log2
			if rng.Intn(4) == 0 && log2 < 8 && i < len(shape)-1 {
				log2++
			}
			lc.Ways = 1 + rng.Intn(4)
			lc.Sets = pick(rng, 1, 2, 4, 8)
			lc.MSHR = 1 + rng.Intn(4)
			lc.Banks = pick(rng, 1, 1, 2)
			lc.BankLat = pick(rng, 1, 2, 3, 3, 5, 10)
			lc.DirLat = rng.Intn(3)
			if lc.Kind != "wb" {
				if lc.DirLat == 0 && !o.ZeroLat {
					lc.DirLat = 1
				}
				if o.ZeroLat && rng.Intn(4) == 0 {
					lc.BankLat = 0
				}
			}
			lc.ReqPerCycle = 1 + rng.Intn(3)
			lc.WriteBuf = 1 + rng.Intn(4)
			lc.MaxFetch = 1 + rng.Intn(4)
			lc.MaxEvict = 1 + rng.Intn(4)
			lc.MaxTrans = 1 + rng.Intn(8)
		} else {
			lc.ROBSize = 1 + rng.Intn(16)
			lc.ReqPerCycle = 1 + rng.Intn(3)
		}
		if rng.Intn(5) == 0 {
			lc.FreqMHz = pick(rng, 700, 1500, 2000, 500)
		}
		cfg.Levels = append(cfg.Levels, lc)
	}
	bottomLog2 := log2

	// memory
	mk := o.MemKind
	if mk == "" {
		ks := []string{"ideal", "ideal"}
		if o.AllowBanked {
			ks = append(ks, "banked")
		}
		if o.AllowDRAM {
			ks = append(ks, "dram")
		}
		mk = ks[rng.Intn(len(ks))]
	}
	cfg.Mem.Kind = mk
	cfg.Mem.Count = pick(rng, 1, 1, 2, 3, 4)
	lowestIsROB := len(shape) > 0 && shape[len(shape)-1] == "rob"
	if lowestIsROB {
		cfg.Mem.Count = 1
	}
	cfg.Mem.Interleave = uint64(1) << (bottomLog2 + uint64(rng.Intn(3)))
	if rng.Intn(3) == 0 {
		cfg.Mem.Interleave = 4096
	}
	cfg.Mem.SharedStorage = rng.Intn(3) == 0
	switch mk {
	case "ideal":
		cfg.Mem.Latency = 1 + rng.Intn(20)
		cfg.Mem.Width = 1 + rng.Intn(3)
	case "banked":
		cfg.Mem.Banks = pick(rng, 1, 2, 4)
		cfg.Mem.Depth = 1 + rng.Intn(3)
		cfg.Mem.PWidth = 1 + rng.Intn(2)
		cfg.Mem.Latency = 1 + rng.Intn(4)
		cfg.Mem.PostBuf = 1 + rng.Intn(3)
	case "dram":
		cfg.Mem.Preset = pick(rng, "DDR3", "DDR4", "DDR5", "HBM2", "HBM3", "GDDR6")
		cfg.Mem.ClosePage = rng.Intn(2) == 0
		if rng.Intn(2) == 0 {
			cfg.Mem.TransQ = pick(rng, 16, 32) // must exceed the sub-transactions of one request (the controller panics otherwise, by design)
		}
	}
	if rng.Intn(5) == 0 {
		cfg.Mem.FreqMHz = pick(rng, 800, 1200, 1600)
	}
	cfg.PortBuf = pick(rng, 1, 2, 4, 8)
	cfg.PerLinkConn = rng.Intn(2) == 0
	if rng.Intn(4) == 0 {
		cfg.ConnFreqMHz = pick(rng, 1000, 1500, 3000, 700)
	}

	// drivers on disjoint address ranges
	nd := 1
	if o.MaxDrivers > 1 {
		nd = 1 + rng.Intn(o.MaxDrivers)
	}
	nreq := o.NumReqs
	if nreq == 0 {
		nreq = 300
	}
	line := uint64(1) << topLog2
	for i := 0; i < nd; i++ {
		numLines := uint64(pick(rng, 8, 16, 32, 64))
		ds := DriverSpec{
			Seed: uint64(rng.Int63()), NumReqs: nreq / nd, MaxInflight: pick(rng, 1, 2, 4, 8, 16, 32),
			IssuePerTick: 1 + rng.Intn(3), LineSize: line, NumLines: numLines,
			AddrBase: uint64(i) * 64 * 256, // disjoint 16 KiB windows
			ReadPct:  pick(rng, 30, 50, 70), FullPct: pick(rng, 10, 30, 60), MaskPct: pick(rng, 0, 20, 50),
			IdlePct: pick(rng, 0, 0, 20, 60),
		}
		if numLines*line > 64*256 {
			ds.NumLines = 64 * 256 / line
		}
		if o.RspStall && rng.Intn(3) == 0 {
			ds.RspStallPct = pick(rng, 30, 60, 90)
		}
		cfg.Drivers = append(cfg.Drivers, ds)
	}
	return cfg
}
