package sim

import (
	"bytes"
	"encoding/binary"
	"encoding/json"
	"fmt"
	"math/rand"

	"github.com/sarchlab/akita/v5/mem"
	"github.com/sarchlab/akita/v5/mem/cache/writeback"
	"github.com/sarchlab/akita/v5/mem/idealmemcontroller"
	"github.com/sarchlab/akita/v5/mem/vm"
	"github.com/sarchlab/akita/v5/mem/vm/addresstranslator"
	"github.com/sarchlab/akita/v5/mem/vm/gmmu"
	"github.com/sarchlab/akita/v5/mem/vm/mmu"
	"github.com/sarchlab/akita/v5/mem/vm/mmuCache"
	"github.com/sarchlab/akita/v5/mem/vm/tlb"
	"github.com/sarchlab/akita/v5/messaging"
	"github.com/sarchlab/akita/v5/noc/directconnection"
	"github.com/sarchlab/akita/v5/simulation"
	"github.com/sarchlab/akita/v5/timing"
)

// TLBCfg is one TLB level.
type TLBCfg struct {
	Sets        int `json:"sets"`
	Ways        int `json:"ways"`
	MSHR        int `json:"mshr"`
	Latency     int `json:"latency"`
	ReqPerCycle int `json:"req_per_cycle"`
}

// VMCfg describes a translation stack: driver -> AT -> TLB* -> [mmuCache] -> [GMMU] -> MMU, with a memory below the AT.
type VMCfg struct {
	PageLog2   uint64     `json:"page_log2"`
	TLBs       []TLBCfg   `json:"tlbs"`
	MMUCache   bool       `json:"mmu_cache"`
	MCLevels   int        `json:"mc_levels"`
	MCBlocks   int        `json:"mc_blocks"`
	MCLatency  int        `json:"mc_latency"`
	GMMU       bool       `json:"gmmu"`
	GMMULat    int        `json:"gmmu_lat"`
	RemotePct  int        `json:"remote_pct"` // % of pages owned by another device (GMMU forwards to the MMU)
	MMULat     int        `json:"mmu_lat"`
	MMUMax     int        `json:"mmu_max"`
	ATReqs     int        `json:"at_reqs"`
	MemLatency int        `json:"mem_latency"`
	CacheBelow bool       `json:"cache_below"` // a small write-back cache between the AT and memory
	PortBuf    int        `json:"port_buf"`
	TableSeed  int64      `json:"table_seed"`
	Driver     DriverSpec `json:"driver"`
	WithCtrl   bool       `json:"with_ctrl"`
	Tracing    bool       `json:"tracing"`
}

// VMStack is a built translation stack.
type VMStack struct {
	Cfg       VMCfg
	Sim       *simulation.Simulation
	Eng       *timing.SerialEngine
	Driver    *Driver
	AT        *addresstranslator.Comp
	TLBs      []*tlb.Comp
	MC        *mmuCache.Comp
	GMMU      *gmmu.Comp
	MMU       *mmu.Comp
	Mem       *idealmemcontroller.Comp
	Cache     *writeback.Comp
	PageTable vm.PageTable
	Storage   *mem.Storage
	Ctrl      *CtrlDriver
	Pages     map[[2]uint64]vm.Page // (pid, vpage addr) -> page
	Dir       string
	frames    map[uint64]bool
	rng       *rand.Rand
}

const gmmuDevice = 7

// Pattern is the prefill content of a physical byte.
func Pattern(pa uint64) byte {
	x := pa*0x9E3779B97F4A7C15 + 0x1234567
	x ^= x >> 29
	return byte(x>>13) | 1 // never zero, so that "read as zero" is always visible
}

// PA translates with the harness's own copy of the table.
func (s *VMStack) PA(pid int, va uint64) (uint64, bool) {
	ps := uint64(1) << s.Cfg.PageLog2
	p, ok := s.Pages[[2]uint64{uint64(pid), va / ps * ps}]
	if !ok {
		return 0, false
	}
	return p.PAddr + va%ps, true
}

func (s *VMStack) newFrame() uint64 {
	ps := uint64(1) << s.Cfg.PageLog2
	for {
		f := (uint64(16) + uint64(s.rng.Intn(1024))) * ps
		if !s.frames[f] {
			s.frames[f] = true
			return f
		}
	}
}

// BuildVMStack builds the stack, the page table for every page the driver can touch, and prefills memory.
func BuildVMStack(cfg VMCfg, dir string) *VMStack {
	s := &VMStack{Cfg: cfg, Dir: dir, Pages: map[[2]uint64]vm.Page{}, frames: map[uint64]bool{}}
	s.rng = rand.New(rand.NewSource(cfg.TableSeed))
	s.Sim = NewSim(dir, cfg.Tracing)
	s.Eng = s.Sim.GetEngine().(*timing.SerialEngine)
	reg := s.Sim
	pb := or(cfg.PortBuf, 4)
	ps := uint64(1) << cfg.PageLog2

	s.PageTable = vm.MakePageTableBuilder().WithLog2PageSize(cfg.PageLog2).WithSimulation(reg).Build("PageTable")

	msp := idealmemcontroller.DefaultSpec()
	msp.Latency = or(cfg.MemLatency, 5)
	msp.Capacity = 1 << 34
	s.Mem = idealmemcontroller.MakeBuilder().WithRegistrar(reg).WithSpec(msp).Build("Mem")
	assignPorts(reg, s.Mem, pb, "Top", "Control")
	s.Storage = s.Mem.Resources().Storage
	memTop := s.Mem.GetPortByName("Top").AsRemote()
	if cfg.CacheBelow {
		csp := writeback.DefaultSpec()
		csp.WayAssociativity = 2
		csp.TotalByteSize = 4 * 2 * 64
		csp.NumMSHREntry = 2
		csp.BankLatency = 2
		csp.WriteBufferCapacity = 2
		csp.MaxInflightFetch, csp.MaxInflightEviction = 2, 2
		s.Cache = writeback.MakeBuilder().WithRegistrar(reg).WithSpec(csp).
			WithResources(writeback.Resources{AddressToPortMapper: &mem.SinglePortMapper{Port: memTop}}).Build("PCache")
		assignPorts(reg, s.Cache, pb, "Top", "Bottom", "Control")
		memTop = s.Cache.GetPortByName("Top").AsRemote()
	}

	// translation providers, bottom-up
	mmsp := mmu.DefaultSpec()
	mmsp.Log2PageSize = cfg.PageLog2
	mmsp.Latency = or(cfg.MMULat, 3)
	mmsp.MaxRequestsInFlight = or(cfg.MMUMax, 4)
	s.MMU = mmu.MakeBuilder().WithRegistrar(reg).WithSpec(mmsp).WithResources(mmu.Resources{PageTable: s.PageTable}).Build("MMU")
	assignPorts(reg, s.MMU, pb, "Top", "Control")
	provider := s.MMU.GetPortByName("Top").AsRemote()
	type link struct{ up, down messaging.Port }
	var links []link
	lowerTop := s.MMU.GetPortByName("Top")
	if cfg.GMMU {
		gsp := gmmu.DefaultSpec()
		gsp.Log2PageSize = cfg.PageLog2
		gsp.DeviceID = gmmuDevice
		gsp.Latency = or(cfg.GMMULat, 2)
		gsp.MaxRequestsInFlight = or(cfg.MMUMax, 4)
		gsp.LowModule = provider
		s.GMMU = gmmu.MakeBuilder().WithRegistrar(reg).WithSpec(gsp).WithResources(gmmu.Resources{PageTable: s.PageTable}).Build("GMMU")
		assignPorts(reg, s.GMMU, pb, "Top", "Bottom", "Control")
		links = append(links, link{s.GMMU.GetPortByName("Bottom"), lowerTop})
		lowerTop = s.GMMU.GetPortByName("Top")
		provider = lowerTop.AsRemote()
	}
	// ports above are created top-down later; the mmuCache needs to know its upper port name, which is
	// deterministic: the Bottom port of the lowest TLB, or the AT's Translation port.
	upperOfMC := "AT.Translation"
	if n := len(cfg.TLBs); n > 0 {
		upperOfMC = fmt.Sprintf("TLB%d.Bottom", n-1)
	}
	if cfg.MMUCache {
		csp := mmuCache.DefaultSpec()
		csp.Log2PageSize = cfg.PageLog2
		csp.PageSize = ps
		csp.NumLevels = or(cfg.MCLevels, 2)
		csp.NumBlocks = or(cfg.MCBlocks, 2)
		csp.LatencyPerLevel = uint64(or(cfg.MCLatency, 2))
		s.MC = mmuCache.MakeBuilder().WithRegistrar(reg).WithSpec(csp).
			WithResources(mmuCache.Resources{LowModulePort: provider, UpModulePort: messaging.RemotePort(upperOfMC)}).Build("MMUCache")
		assignPorts(reg, s.MC, pb, "Top", "Bottom", "Control")
		links = append(links, link{s.MC.GetPortByName("Bottom"), lowerTop})
		lowerTop = s.MC.GetPortByName("Top")
		provider = lowerTop.AsRemote()
	}
	s.TLBs = make([]*tlb.Comp, len(cfg.TLBs))
	for i := len(cfg.TLBs) - 1; i >= 0; i-- {
		tc := cfg.TLBs[i]
		tsp := tlb.DefaultSpec()
		tsp.Log2PageSize = cfg.PageLog2
		tsp.PageSize = ps
		tsp.NumSets = or(tc.Sets, 1)
		tsp.NumWays = or(tc.Ways, 2)
		tsp.MSHRSize = or(tc.MSHR, 2)
		tsp.Latency = or(tc.Latency, 1)
		tsp.NumReqPerCycle = or(tc.ReqPerCycle, 1)
		t := tlb.MakeBuilder().WithRegistrar(reg).WithSpec(tsp).
			WithResources(tlb.Resources{TranslationProviderMapper: &mem.SinglePortMapper{Port: provider}}).Build(fmt.Sprintf("TLB%d", i))
		assignPorts(reg, t, pb, "Top", "Bottom", "Control")
		s.TLBs[i] = t
		links = append(links, link{t.GetPortByName("Bottom"), lowerTop})
		lowerTop = t.GetPortByName("Top")
		provider = lowerTop.AsRemote()
	}
	asp := addresstranslator.DefaultSpec()
	asp.Log2PageSize = cfg.PageLog2
	asp.NumReqPerCycle = or(cfg.ATReqs, 2)
	s.AT = addresstranslator.MakeBuilder().WithRegistrar(reg).WithSpec(asp).
		WithResources(addresstranslator.Resources{
			MemProviderMapper:         &mem.SinglePortMapper{Port: memTop},
			TranslationProviderMapper: &mem.SinglePortMapper{Port: provider},
		}).Build("AT")
	assignPorts(reg, s.AT, pb, "Top", "Bottom", "Translation", "Control")
	links = append(links, link{s.AT.GetPortByName("Translation"), lowerTop})

	ds := cfg.Driver
	ds.Dsts = []string{string(s.AT.GetPortByName("Top").AsRemote())}
	ds.SendPID = true
	if ds.Freq == 0 {
		ds.Freq = 1 * timing.GHz
	}
	s.Driver = BuildDriver(reg, "Driver0", ds, pb)

	// connections: one per link
	mk := func(name string, ports ...messaging.Port) {
		c := directconnection.MakeBuilder().WithRegistrar(reg).Build(name)
		for _, p := range ports {
			c.PlugIn(p)
		}
	}
	mk("ConnTop", s.Driver.GetPortByName("Mem"), s.AT.GetPortByName("Top"))
	for i, l := range links {
		mk(fmt.Sprintf("ConnT%d", i), l.up, l.down)
	}
	if s.Cache != nil {
		mk("ConnMem0", s.AT.GetPortByName("Bottom"), s.Cache.GetPortByName("Top"))
		mk("ConnMem1", s.Cache.GetPortByName("Bottom"), s.Mem.GetPortByName("Top"))
	} else {
		mk("ConnMem0", s.AT.GetPortByName("Bottom"), s.Mem.GetPortByName("Top"))
	}
	if cfg.WithCtrl {
		s.Ctrl = BuildCtrlDriver(reg, "CtrlDriver", pb)
		ports := []messaging.Port{s.Ctrl.GetPortByName("Ctrl"), s.AT.GetPortByName("Control"), s.MMU.GetPortByName("Control"), s.Mem.GetPortByName("Control")}
		for _, t := range s.TLBs {
			ports = append(ports, t.GetPortByName("Control"))
		}
		if s.MC != nil {
			ports = append(ports, s.MC.GetPortByName("Control"))
		}
		if s.GMMU != nil {
			ports = append(ports, s.GMMU.GetPortByName("Control"))
		}
		if s.Cache != nil {
			ports = append(ports, s.Cache.GetPortByName("Control"))
		}
		mk("CtrlConn", ports...)
	}

	// page table + prefill for every byte the driver can touch
	stride := ds.LineStride
	if stride == 0 {
		stride = ds.LineSize
	}
	for pid := 1; pid <= ds.NumPIDs; pid++ {
		for line := uint64(0); line < ds.NumLines; line++ {
			base := ds.AddrBase + line*stride + uint64(pid-1)*ds.PIDStride
			vp := base / ps * ps
			k := [2]uint64{uint64(pid), vp}
			if _, ok := s.Pages[k]; !ok {
				dev := uint64(1)
				if cfg.GMMU {
					dev = gmmuDevice
					if s.rng.Intn(100) < cfg.RemotePct {
						dev = 3
					}
				}
				pg := vm.Page{PID: vm.PID(pid), VAddr: vp, PAddr: s.newFrame(), PageSize: ps, Valid: true, DeviceID: dev}
				s.Pages[k] = pg
				s.PageTable.Insert(pg)
			}
			buf := make([]byte, ds.LineSize)
			pa, _ := s.PA(pid, base)
			for i := range buf {
				buf[i] = Pattern(pa + uint64(i))
				s.Driver.State.Ref[refKey(pid, base+uint64(i))] = buf[i]
			}
			if err := s.Storage.Write(pa, buf); err != nil {
				panic(err)
			}
		}
	}
	return s
}

// Start kicks the driver.
func (s *VMStack) Start() { s.Driver.TickLater() }

// Close terminates the simulation.
func (s *VMStack) Close() { (&Stack{Sim: s.Sim, Dir: s.Dir}).Close() }

// AllPorts lists every registered port.
func (s *VMStack) AllPorts() []messaging.Port {
	var out []messaging.Port
	for _, p := range s.Sim.Ports() {
		out = append(out, p.(messaging.Port))
	}
	return out
}

// StorageBytes enumerates every allocated byte of a storage through its checkpoint encoding.
func StorageBytes(st *mem.Storage, f func(addr uint64, b byte)) error {
	var buf bytes.Buffer
	if err := st.SaveCheckpoint(&buf); err != nil {
		return err
	}
	d := buf.Bytes()
	unit := binary.LittleEndian.Uint64(d[8:])
	n := binary.LittleEndian.Uint64(d[16:])
	off := uint64(24)
	for i := uint64(0); i < n; i++ {
		addr := binary.LittleEndian.Uint64(d[off:])
		off += 8
		for j := uint64(0); j < unit; j++ {
			f(addr+j, d[off+j])
		}
		off += unit
	}
	return nil
}

// VMAssembly adapts VMStack to Assembly.
type VMAssembly struct{ *VMStack }

func (a VMAssembly) Engine() *timing.SerialEngine       { return a.Eng }
func (a VMAssembly) SaveCheckpoint(p, id string) error  { return a.Sim.SaveCheckpoint(p, id) }
func (a VMAssembly) LoadCheckpoint(p, id string) error  { return a.Sim.LoadCheckpoint(p, id) }
func (a VMAssembly) Ports() []messaging.Port            { return a.AllPorts() }
func (a VMAssembly) Done() (bool, int)                  { return a.Driver.Done(), a.Driver.State.ErrCount }
func (a VMAssembly) Payloads(dir string) (map[string][]byte, error) {
	m, _, err := EntityPayloads(a.Sim, dir, "digest")
	return m, err
}
func (a VMAssembly) InFlight() int {
	n := len(a.Driver.State.Inflight)
	for _, p := range a.Sim.Ports() {
		n += p.NumIncoming() + p.NumOutgoing()
	}
	return n
}

// RandomVMCfg draws a translation stack.
func RandomVMCfg(rng *rand.Rand, nreq int) VMCfg {
	cfg := VMCfg{PageLog2: pick(rng, uint64(12), uint64(12), uint64(16), uint64(21)), TableSeed: rng.Int63()}
	for i, n := 0, rng.Intn(4); i < n; i++ {
		cfg.TLBs = append(cfg.TLBs, TLBCfg{Sets: pick(rng, 1, 2, 4), Ways: 1 + rng.Intn(4), MSHR: 1 + rng.Intn(4), Latency: 1 + rng.Intn(4), ReqPerCycle: 1 + rng.Intn(3)})
	}
	cfg.MMUCache = rng.Intn(3) == 0
	cfg.MCLevels, cfg.MCBlocks, cfg.MCLatency = 1+rng.Intn(4), 1+rng.Intn(4), 1+rng.Intn(5)
	cfg.GMMU = rng.Intn(3) == 0
	cfg.GMMULat, cfg.RemotePct = 1+rng.Intn(4), pick(rng, 0, 30, 70, 100)
	cfg.MMULat, cfg.MMUMax = 1+rng.Intn(10), 1+rng.Intn(8)
	cfg.ATReqs = 1 + rng.Intn(4)
	cfg.MemLatency = 1 + rng.Intn(10)
	cfg.CacheBelow = rng.Intn(3) == 0
	cfg.PortBuf = pick(rng, 1, 2, 4, 8)
	ps := uint64(1) << cfg.PageLog2
	cfg.Driver = DriverSpec{Seed: uint64(rng.Int63()), NumReqs: nreq, MaxInflight: pick(rng, 1, 2, 4, 8, 16), IssuePerTick: 1 + rng.Intn(3),
		LineSize: 64, NumLines: uint64(pick(rng, 8, 16, 32, 64)), LineStride: pick(rng, uint64(64), ps/4+64, ps/2, ps+64, ps*2),
		AddrBase: uint64(rng.Intn(64)) * 64 * uint64(1+rng.Intn(200)), NumPIDs: 1 + rng.Intn(4), PIDStride: pick(rng, uint64(1)<<32, 0, ps*4),
		ReadPct: pick(rng, 50, 70), FullPct: 20, MaskPct: pick(rng, 0, 30), IdlePct: pick(rng, 0, 0, 30)}
	return cfg
}

func init() {
	RegisterFactory("vm", func(cfg json.RawMessage, dir string, _ []string) Assembly {
		var c VMCfg
		if err := json.Unmarshal(cfg, &c); err != nil {
			panic(err)
		}
		return VMAssembly{VMStack: BuildVMStack(c, dir)}
	})
}
