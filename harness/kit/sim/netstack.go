package sim

import (
	"encoding/binary"
	"encoding/json"
	"fmt"
	"hash/fnv"
	"math"
	"math/rand"

	"github.com/sarchlab/akita/v5/messaging"
	"github.com/sarchlab/akita/v5/modeling"
	"github.com/sarchlab/akita/v5/noc/networking/mesh"
	"github.com/sarchlab/akita/v5/noc/networking/networkconnector"
	"github.com/sarchlab/akita/v5/noc/networking/pcie"
	"github.com/sarchlab/akita/v5/simulation"
	"github.com/sarchlab/akita/v5/timing"
)

// Assembly kind "net": a network-on-chip built with the library connectors
// (mesh, PCIe tree, generic switch tree) and serialisable traffic agents on
// its device ports. Everything an agent does is a function of its Spec and
// State, so the assembly can be checkpointed at any event time.

// NetMsg is what a traffic agent puts on its port. The network is a
// metadata-only transport: the receiver sees a packetization.AssembledMsg.
type NetMsg struct {
	messaging.MsgMeta
}

// NetAgentSpec configures one traffic agent (primitive fields only: it is a component Spec).
type NetAgentSpec struct {
	Freq          timing.Freq `json:"freq"`
	Seed          uint64      `json:"seed"`
	NumMsgs       int         `json:"num_msgs"`
	SendPct       int         `json:"send_pct"`       // chance per tick and burst slot that a message is sent
	Burst         int         `json:"burst"`          // messages per tick at most
	Drain         int         `json:"drain"`          // messages retrieved per port and tick at most
	StallPermille int         `json:"stall_permille"` // chance per tick that the receiver side starts a stall
	MaxStall      int         `json:"max_stall"`      // a stall lasts 1..MaxStall ticks
	MaxBytes      int         `json:"max_bytes"`
	Flit          int         `json:"flit"`
	HotPct        int         `json:"hot_pct"` // % of messages that go to Dsts[Hot]
	Hot           int         `json:"hot"`
	PortIn        []int       `json:"port_in"`
	PortOut       []int       `json:"port_out"`
	Dsts          []string    `json:"dsts"` // every device port of the assembly
}

// NetAgentState is the whole mutable state of an agent.
type NetAgentState struct {
	Rng          uint64 `json:"rng"`
	ToSend       int    `json:"to_send"`
	Sent         int    `json:"sent"`
	Recv         int    `json:"recv"`
	Stall        int    `json:"stall"` // remaining ticks of the current receiver stall
	Stalls       int    `json:"stalls"`
	StalledTicks int    `json:"stalled_ticks"`
	SendBlocked  int    `json:"send_blocked"`
	BytesSent    int    `json:"bytes_sent"`
	BytesRecv    int    `json:"bytes_recv"`
	LastRecvID   uint64 `json:"last_recv_id"` // used as RspTo of some later messages
	LastRecvAt   uint64 `json:"last_recv_at"`
	RecvHash     uint64 `json:"recv_hash"` // order, port, source, id, class, bytes, RspTo and arrival time of everything received
	Errors       int    `json:"errors"`    // deliveries whose Dst is not the receiving port
}

// NetAgent is a traffic agent.
type NetAgent struct {
	*modeling.Component[NetAgentSpec, NetAgentState, modeling.None]
}

type netAgentMW struct{ a *NetAgent }

var netClasses = []string{"", "mem.ReadReq", "mem.WriteReq", "mem.DataReadyRsp", "NetMsg", "x"}

func (a *NetAgent) next() uint64 { // xorshift64*
	x := a.State.Rng
	x ^= x >> 12
	x ^= x << 25
	x ^= x >> 27
	a.State.Rng = x
	return x * 2685821657736338717
}

func (a *NetAgent) intn(n int) int {
	if n <= 0 {
		return 0
	}
	return int(a.next() % uint64(n))
}

func (a *NetAgent) drawBytes() int {
	sp := a.Spec()
	f := sp.Flit
	var b int
	switch a.intn(6) {
	case 0:
		b = 0
	case 1:
		b = 1 + a.intn(3)
	case 2:
		b = f + a.intn(3) - 1
	case 3:
		b = []int{4, 8, 12, 16, 32, 64, 100, 128}[a.intn(8)]
	default:
		b = a.intn(sp.MaxBytes + 1)
	}
	if b > sp.MaxBytes {
		b = sp.MaxBytes
	}
	if b < 0 {
		b = 0
	}
	return b
}

func (m *netAgentMW) Tick() bool {
	a := m.a
	st := &a.State
	sp := a.Spec()
	ports := a.PortsInGroup("Port")
	progress := false

	// sender side
	for n := 0; n < sp.Burst && st.ToSend > 0; n++ {
		if a.intn(100) >= sp.SendPct {
			break
		}
		port := ports[a.intn(len(ports))]
		if !port.CanSend() {
			st.SendBlocked++
			break
		}
		me := string(port.AsRemote())
		var dst string
		if sp.HotPct > 0 && a.intn(100) < sp.HotPct && sp.Dsts[sp.Hot] != me {
			dst = sp.Dsts[sp.Hot]
		} else {
			k := a.intn(len(sp.Dsts) - 1)
			for _, d := range sp.Dsts {
				if d == me {
					continue
				}
				if k == 0 {
					dst = d
					break
				}
				k--
			}
		}
		msg := NetMsg{MsgMeta: messaging.MsgMeta{
			ID: timing.GetIDGenerator().Generate(), Src: port.AsRemote(), Dst: messaging.RemotePort(dst),
			TrafficClass: netClasses[a.intn(len(netClasses))], TrafficBytes: a.drawBytes(),
		}}
		if a.intn(4) == 0 {
			msg.RspTo = st.LastRecvID
		}
		port.Send(msg)
		st.Sent++
		st.ToSend--
		st.BytesSent += msg.TrafficBytes
		progress = true
	}

	// receiver side: sometimes stalls for a PRNG-chosen number of ticks
	if st.Stall > 0 {
		st.Stall--
		st.StalledTicks++
		return true
	}
	if sp.StallPermille > 0 && a.intn(1000) < sp.StallPermille {
		st.Stall = 1 + a.intn(sp.MaxStall)
		st.Stalls++
		return true
	}
	now := uint64(a.CurrentTime())
	for pi, port := range ports {
		for n := 0; n < sp.Drain; n++ {
			msg := port.RetrieveIncoming()
			if msg == nil {
				break
			}
			meta := msg.Meta()
			if meta.Dst != port.AsRemote() {
				st.Errors++
			}
			st.Recv++
			st.BytesRecv += meta.TrafficBytes
			st.LastRecvID, st.LastRecvAt = meta.ID, now
			h := fnv.New64a()
			var b8 [8]byte
			for _, v := range []uint64{st.RecvHash, uint64(pi), meta.ID, uint64(meta.TrafficBytes), meta.RspTo, now} {
				binary.LittleEndian.PutUint64(b8[:], v)
				h.Write(b8[:])
			}
			h.Write([]byte(meta.Src))
			h.Write([]byte{0})
			h.Write([]byte(meta.TrafficClass))
			st.RecvHash = h.Sum64()
			progress = true
		}
	}
	return progress || st.ToSend > 0
}

func buildNetAgent(reg modeling.Registrar, name string, spec NetAgentSpec) *NetAgent {
	c := modeling.NewBuilder[NetAgentSpec, NetAgentState, modeling.None]().
		WithEngine(reg.GetEngine()).WithFreq(spec.Freq).WithSpec(spec).Build(name)
	c.State = NetAgentState{Rng: spec.Seed*2654435761 + 0x9E3779B97F4A7C15, ToSend: spec.NumMsgs}
	c.DeclarePortGroup("Port")
	a := &NetAgent{Component: c}
	c.AddMiddleware(&netAgentMW{a: a})
	reg.RegisterComponent(a)
	for i := range spec.PortIn {
		p := messaging.NewPort(a, spec.PortIn[i], spec.PortOut[i], netPortName(name, i))
		reg.RegisterPort(p)
		c.AssignPortToGroup("Port", p)
	}
	return a
}

func netPortName(agent string, i int) string { return fmt.Sprintf("%s.Port[%d]", agent, i) }

// ---------------------------------------------------------------- configuration

// NetAgentCfg is one agent of a NetCfg.
type NetAgentCfg struct {
	Name          string `json:"name"`
	FreqMHz       int    `json:"freq_mhz"`
	Seed          uint64 `json:"seed"`
	NumMsgs       int    `json:"num_msgs"`
	SendPct       int    `json:"send_pct"`
	Burst         int    `json:"burst"`
	Drain         int    `json:"drain"`
	StallPermille int    `json:"stall_permille"`
	MaxStall      int    `json:"max_stall"`
	HotPct        int    `json:"hot_pct"`
	PortIn        []int  `json:"port_in"`
	PortOut       []int  `json:"port_out"`
}

// NetTileCfg puts an agent on a mesh tile (two agents may share a tile).
type NetTileCfg struct {
	Loc   [3]int `json:"loc"`
	Agent int    `json:"agent"`
}

// NetMeshCfg is a 2D/3D mesh; the grid is the bounding box of the tiles (tiles without agent are holes).
type NetMeshCfg struct {
	Defaults  bool         `json:"defaults"` // keep the connector's latency/flit size/bandwidth
	SwitchLat int          `json:"switch_lat"`
	BW        float64      `json:"transfers_per_cycle"`
	Tiles     []NetTileCfg `json:"tiles"`
}

// NetPlugCfg plugs an agent into a PCIe switch.
type NetPlugCfg struct {
	Switch int `json:"switch"`
	Agent  int `json:"agent"`
}

// NetPCIeCfg is a PCIe tree: switch 0 is the root complex (agent Root), switch i+1 hangs below Parents[i].
type NetPCIeCfg struct {
	Mode      string       `json:"mode"` // default | version | bandwidth
	Version   int          `json:"version"`
	Width     int          `json:"width"`
	Bandwidth uint64       `json:"bandwidth"`
	SetLat    bool         `json:"set_lat"`
	SwitchLat int          `json:"switch_lat"`
	Root      int          `json:"root"`
	Parents   []int        `json:"parents"`
	Devices   []NetPlugCfg `json:"devices"`
}

// NetEndCfg is one end of a link of the generic connector.
type NetEndCfg struct {
	In    int `json:"in"`
	Out   int `json:"out"`
	InCh  int `json:"in_ch"`
	OutCh int `json:"out_ch"`
	Lat   int `json:"lat"`
}

// NetGenOp is one connector call: a switch-switch link or a device attachment.
type NetGenOp struct {
	Link   bool      `json:"link"`
	A      int       `json:"a"`
	B      int       `json:"b"`
	Left   NetEndCfg `json:"left"`
	Right  NetEndCfg `json:"right"`
	Agent  int       `json:"agent"`
	Switch int       `json:"switch"`
	EPName string    `json:"ep_name"` // "" = the connector names the endpoint
	Dev    NetEndCfg `json:"dev"`
	Sw     NetEndCfg `json:"sw"`
}

// NetGenCfg is a switch graph built with networkconnector.Connector (a tree, so that every message arrives).
type NetGenCfg struct {
	BWRouter bool       `json:"bandwidth_first_router"`
	Switches []string   `json:"switches"` // "" = the connector names the switch
	Ops      []NetGenOp `json:"ops"`
}

// NetCfg describes a whole network assembly.
type NetCfg struct {
	Family   string        `json:"family"` // mesh | pcie | tree
	FreqMHz  int           `json:"freq_mhz"`
	Flit     int           `json:"flit"`
	MaxBytes int           `json:"max_bytes"`
	Hot      int           `json:"hot"` // index into the list of all device ports
	Mesh     *NetMeshCfg   `json:"mesh,omitempty"`
	PCIe     *NetPCIeCfg   `json:"pcie,omitempty"`
	Gen      *NetGenCfg    `json:"gen,omitempty"`
	Agents   []NetAgentCfg `json:"agents"`
	Tracing  bool          `json:"tracing"`
}

// NetStack is a built network assembly.
type NetStack struct {
	Cfg    NetCfg
	Sim    *simulation.Simulation
	Eng    *timing.SerialEngine
	Agents []*NetAgent
	Dir    string
}

func (e NetEndCfg) sw() networkconnector.LinkEndSwitchParameter {
	return networkconnector.LinkEndSwitchParameter{IncomingBufSize: e.In, OutgoingBufSize: e.Out,
		NumInputChannel: e.InCh, NumOutputChannel: e.OutCh, Latency: e.Lat}
}

func (e NetEndCfg) dev() networkconnector.LinkEndDeviceParameter {
	return networkconnector.LinkEndDeviceParameter{IncomingBufSize: e.In, OutgoingBufSize: e.Out,
		NumInputChannel: e.InCh, NumOutputChannel: e.OutCh}
}

// BuildNetStack builds the assembly described by cfg. dir is a scratch dir.
func BuildNetStack(cfg NetCfg, dir string) *NetStack {
	s := &NetStack{Cfg: cfg, Dir: dir}
	s.Sim = NewSim(dir, cfg.Tracing)
	s.Eng = s.Sim.GetEngine().(*timing.SerialEngine)
	reg := s.Sim
	freq := mhz(cfg.FreqMHz, 1*timing.GHz)

	var dsts []string
	for _, ac := range cfg.Agents {
		for i := range ac.PortIn {
			dsts = append(dsts, netPortName(ac.Name, i))
		}
	}
	for _, ac := range cfg.Agents {
		a := buildNetAgent(reg, ac.Name, NetAgentSpec{Freq: mhz(ac.FreqMHz, 1*timing.GHz), Seed: ac.Seed, NumMsgs: ac.NumMsgs,
			SendPct: ac.SendPct, Burst: ac.Burst, Drain: ac.Drain, StallPermille: ac.StallPermille, MaxStall: ac.MaxStall,
			MaxBytes: cfg.MaxBytes, Flit: cfg.Flit, HotPct: ac.HotPct, Hot: cfg.Hot, PortIn: ac.PortIn, PortOut: ac.PortOut, Dsts: dsts})
		s.Agents = append(s.Agents, a)
	}
	ports := func(i int) []messaging.Port { return s.Agents[i].PortsInGroup("Port") }

	switch cfg.Family {
	case "mesh":
		mc := cfg.Mesh
		conn := mesh.NewConnector().WithRegistrar(reg).WithFreq(freq)
		if !mc.Defaults {
			conn = conn.WithSwitchLatency(mc.SwitchLat).WithFlitSize(cfg.Flit).WithBandwidth(mc.BW)
		}
		conn.CreateNetwork("Mesh")
		for _, t := range mc.Tiles {
			var ps []messaging.Port
			if t.Agent >= 0 {
				ps = ports(t.Agent)
			}
			conn.AddTile(t.Loc, ps)
		}
		conn.EstablishNetwork()
	case "pcie":
		pc := cfg.PCIe
		conn := pcie.NewConnector().WithRegistrar(reg).WithFrequency(freq)
		switch pc.Mode {
		case "version":
			conn = conn.WithVersion(pc.Version, pc.Width)
		case "bandwidth":
			conn = conn.WithBandwidth(pc.Bandwidth)
		}
		if pc.SetLat {
			conn = conn.WithSwitchLatency(pc.SwitchLat)
		}
		conn.CreateNetwork("PCIe")
		ids := []int{conn.AddRootComplex(ports(pc.Root))}
		for _, p := range pc.Parents {
			ids = append(ids, conn.AddSwitch(ids[p]))
		}
		for _, d := range pc.Devices {
			conn.PlugInDevice(ids[d.Switch], ports(d.Agent))
		}
		conn.EstablishRoute()
	default:
		gc := cfg.Gen
		c := networkconnector.MakeConnector().WithRegistrar(reg).WithDefaultFreq(freq).WithFlitSize(cfg.Flit)
		if gc.BWRouter {
			c = c.WithRouter(&networkconnector.BandwidthFirstRouter{FlitSize: cfg.Flit})
		}
		conn := &c
		conn.NewNetwork("Gen")
		for _, n := range gc.Switches {
			if n == "" {
				conn.AddSwitch()
			} else {
				conn.AddSwitchWithName(n)
			}
		}
		ideal := networkconnector.LinkParameter{IsIdeal: true, Frequency: freq}
		for _, o := range gc.Ops {
			if o.Link {
				conn.ConnectSwitches(o.A, o.B, networkconnector.SwitchToSwitchLinkParameter{
					LeftEndParam: o.Left.sw(), RightEndParam: o.Right.sw(), LinkParam: ideal})
				continue
			}
			param := networkconnector.DeviceToSwitchLinkParameter{DeviceEndParam: o.Dev.dev(), SwitchEndParam: o.Sw.sw(), LinkParam: ideal}
			if o.EPName != "" {
				conn.ConnectDeviceWithEPName(o.EPName, o.Switch, ports(o.Agent), param)
			} else {
				conn.ConnectDevice(o.Switch, ports(o.Agent), param)
			}
		}
		conn.EstablishRoute()
	}
	return s
}

// Start kicks every agent.
func (s *NetStack) Start() {
	for _, a := range s.Agents {
		a.TickLater()
	}
}

// Close terminates the simulation.
func (s *NetStack) Close() { (&Stack{Sim: s.Sim, Dir: s.Dir}).Close() }

// AllPorts lists every registered port (device ports, endpoint network ports, switch ports).
func (s *NetStack) AllPorts() []messaging.Port {
	var out []messaging.Port
	for _, p := range s.Sim.Ports() {
		out = append(out, p.(messaging.Port))
	}
	return out
}

// Totals sums the agents' counters.
func (s *NetStack) Totals() (toSend, sent, recv, errs int) {
	for _, a := range s.Agents {
		toSend += a.State.ToSend
		sent += a.State.Sent
		recv += a.State.Recv
		errs += a.State.Errors
	}
	return
}

// NetAssembly adapts NetStack to Assembly.
type NetAssembly struct{ *NetStack }

func (a NetAssembly) Engine() *timing.SerialEngine      { return a.Eng }
func (a NetAssembly) SaveCheckpoint(p, id string) error { return a.Sim.SaveCheckpoint(p, id) }
func (a NetAssembly) LoadCheckpoint(p, id string) error { return a.Sim.LoadCheckpoint(p, id) }
func (a NetAssembly) Ports() []messaging.Port           { return a.AllPorts() }
func (a NetAssembly) Done() (bool, int) {
	toSend, sent, recv, errs := a.Totals()
	return toSend == 0 && sent == recv, errs
}
func (a NetAssembly) Payloads(dir string) (map[string][]byte, error) {
	m, _, err := EntityPayloads(a.Sim, dir, "digest")
	return m, err
}
func (a NetAssembly) InFlight() int {
	_, sent, recv, _ := a.Totals()
	n := sent - recv
	for _, p := range a.Sim.Ports() {
		n += p.NumIncoming() + p.NumOutgoing()
	}
	return n
}

// ---------------------------------------------------------------- generator

func netPCIeFlit(version, width int, freqMHz int) int {
	bw := float64(uint64(2<<30)<<(version-1)) * float64(width) / 8
	return int(math.Round(bw / (float64(freqMHz) * 1e6)))
}

// RandomNetCfg draws a small network whose agents send nmsgs messages in total.
func RandomNetCfg(rng *rand.Rand, nmsgs int) NetCfg {
	cfg := NetCfg{Family: pick(rng, "mesh", "mesh", "pcie", "tree", "tree"), FreqMHz: pick(rng, 1000, 1000, 1000, 500, 2000)}
	stallMode := pick(rng, "none", "some", "some", "most")
	agent := func(name string, maxPorts int) int {
		ac := NetAgentCfg{Name: name, FreqMHz: pick(rng, 1000, 1000, 1000, 700, 1300), Seed: uint64(rng.Int63()),
			SendPct: pick(rng, 15, 50, 100, 100), Burst: 1 + rng.Intn(3), Drain: 1 + rng.Intn(3), HotPct: pick(rng, 0, 0, 50, 80)}
		if stallMode == "most" || (stallMode == "some" && rng.Intn(3) == 0) {
			ac.StallPermille, ac.MaxStall = pick(rng, 10, 30, 80), pick(rng, 5, 30, 100)
		}
		for i, n := 0, 1+rng.Intn(maxPorts); i < n; i++ {
			ac.PortIn = append(ac.PortIn, 1+rng.Intn(3))
			ac.PortOut = append(ac.PortOut, 1+rng.Intn(3))
		}
		cfg.Agents = append(cfg.Agents, ac)
		return len(cfg.Agents) - 1
	}
	end := func(lat int) NetEndCfg {
		return NetEndCfg{In: 1 + rng.Intn(3), Out: 1 + rng.Intn(3), InCh: 1 + rng.Intn(3), OutCh: 1 + rng.Intn(3), Lat: rng.Intn(lat + 1)}
	}
	switch cfg.Family {
	case "mesh":
		mc := &NetMeshCfg{SwitchLat: rng.Intn(4), BW: pick(rng, 1, 1, 1, 2, 1.5, 3)}
		cfg.Flit = 8 << rng.Intn(4)
		if rng.Intn(4) == 0 {
			mc.Defaults, mc.SwitchLat, mc.BW, cfg.Flit = true, 0, 1, 16
		}
		dim := pick(rng, [3]int{2, 2, 1}, [3]int{3, 2, 1}, [3]int{3, 3, 1}, [3]int{2, 2, 2}, [3]int{3, 1, 1}, [3]int{3, 2, 2}, [3]int{1, 4, 1})
		for x := 0; x < dim[0]; x++ {
			for y := 0; y < dim[1]; y++ {
				for z := 0; z < dim[2]; z++ {
					far := x == dim[0]-1 && y == dim[1]-1 && z == dim[2]-1
					origin := x == 0 && y == 0 && z == 0
					if !far && !origin && rng.Intn(5) == 0 {
						continue // the switch exists, no device on it
					}
					mc.Tiles = append(mc.Tiles, NetTileCfg{Loc: [3]int{x, y, z}, Agent: agent(fmt.Sprintf("T%d", len(cfg.Agents)), 2)})
				}
			}
		}
		if rng.Intn(3) == 0 { // a second device on an occupied tile: the connector merges the ports
			t := mc.Tiles[rng.Intn(len(mc.Tiles))]
			mc.Tiles = append(mc.Tiles, NetTileCfg{Loc: t.Loc, Agent: agent(fmt.Sprintf("T%d", len(cfg.Agents)), 1)})
		}
		rng.Shuffle(len(mc.Tiles), func(i, j int) { mc.Tiles[i], mc.Tiles[j] = mc.Tiles[j], mc.Tiles[i] })
		cfg.Mesh = mc
	case "pcie":
		pc := &NetPCIeCfg{Mode: pick(rng, "default", "version", "bandwidth")}
		cfg.Flit = netPCIeFlit(4, 16, 1000) // NewConnector fixes the default at 1 GHz
		switch pc.Mode {
		case "version":
			pc.Version, pc.Width = 1+rng.Intn(5), pick(rng, 4, 8, 16)
			cfg.Flit = netPCIeFlit(pc.Version, pc.Width, cfg.FreqMHz)
		case "bandwidth":
			pc.Bandwidth = uint64(4+rng.Intn(60)) * 1e9
			cfg.Flit = int(math.Round(float64(pc.Bandwidth) / (float64(cfg.FreqMHz) * 1e6)))
		}
		// the connector's default latency (140 cycles per switch port) only in a quarter of the cases: it multiplies the event count
		if rng.Intn(4) > 0 {
			pc.SetLat, pc.SwitchLat = true, pick(rng, 0, 1, 2, 5, 17, 40)
		}
		pc.Root = agent("D0", 3)
		nsw := 1
		for n := rng.Intn(4); n > 0; n-- {
			pc.Parents = append(pc.Parents, rng.Intn(nsw))
			nsw++
		}
		for n := 1 + rng.Intn(5); n > 0; n-- {
			sw := rng.Intn(nsw)
			if rng.Intn(3) > 0 {
				sw = nsw - 1 - rng.Intn((nsw+1)/2) // prefer the deeper switches
			}
			pc.Devices = append(pc.Devices, NetPlugCfg{Switch: sw, Agent: agent(fmt.Sprintf("D%d", len(cfg.Agents)), 3)})
		}
		cfg.PCIe = pc
	default:
		gc := &NetGenCfg{BWRouter: rng.Intn(4) == 0}
		cfg.Flit = pick(rng, 4, 16, 32, 64)
		n := 1 + rng.Intn(6)
		lat := pick(rng, 0, 1, 3, 12)
		shape := pick(rng, "path", "star", "tree", "tree")
		perm := rng.Perm(n)
		for i := 1; i < n; i++ {
			a := i - 1
			switch shape {
			case "star":
				a = 0
			case "tree":
				a = rng.Intn(i)
			}
			l, r := perm[a], perm[i]
			if rng.Intn(2) == 0 {
				l, r = r, l
			}
			gc.Ops = append(gc.Ops, NetGenOp{Link: true, A: l, B: r, Left: end(lat), Right: end(lat)})
		}
		for i := 0; i < n; i++ {
			name := ""
			if rng.Intn(2) == 0 {
				name = fmt.Sprintf("S%d", i)
			}
			gc.Switches = append(gc.Switches, name)
		}
		for d, nd := 0, 2+rng.Intn(5); d < nd; d++ {
			op := NetGenOp{Agent: agent(fmt.Sprintf("G%d", d), 3), Switch: rng.Intn(n), Dev: end(0), Sw: end(lat)}
			if rng.Intn(2) == 0 {
				op.EPName = fmt.Sprintf("EP%d", d)
			}
			gc.Ops = append(gc.Ops, op)
		}
		rng.Shuffle(len(gc.Ops), func(i, j int) { gc.Ops[i], gc.Ops[j] = gc.Ops[j], gc.Ops[i] })
		cfg.Gen = gc
	}
	if cfg.Flit < 1 {
		cfg.Flit = 1
	}
	cfg.MaxBytes = cfg.Flit * (1 + rng.Intn(5))
	nports := 0
	for _, a := range cfg.Agents {
		nports += len(a.PortIn)
	}
	cfg.Hot = rng.Intn(nports)

	// distribute the messages: some agents only receive
	w := make([]int, len(cfg.Agents))
	sum := 0
	for i := range w {
		w[i] = pick(rng, 0, 1, 1, 2, 4)
		sum += w[i]
	}
	if sum == 0 {
		w[0], sum = 1, 1
	}
	left, first := nmsgs, -1
	for i := range w {
		if w[i] > 0 && first < 0 {
			first = i
		}
		cfg.Agents[i].NumMsgs = nmsgs * w[i] / sum
		left -= cfg.Agents[i].NumMsgs
	}
	cfg.Agents[first].NumMsgs += left
	return cfg
}

func init() {
	messaging.RegisterMsg(NetMsg{})
	RegisterFactory("net", func(cfg json.RawMessage, dir string, _ []string) Assembly {
		var c NetCfg
		if err := json.Unmarshal(cfg, &c); err != nil {
			panic(err)
		}
		return NetAssembly{NetStack: BuildNetStack(c, dir)}
	})
}
