package sim

import (
	"fmt"
	"os"
	"path/filepath"

	"github.com/sarchlab/akita/v5/messaging"
	"github.com/sarchlab/akita/v5/timing"
)

// RunResult is what a (reference or resumed) run produced.
type RunResult struct {
	Trace    *EventTrace
	Payloads map[string][]byte
	EndTime  timing.VTimeInPicoSec
	NextID   uint64
	Done     bool
	ErrCount int
}

// Assembly abstracts "something that can be rebuilt identically".
type Assembly interface {
	Engine() *timing.SerialEngine
	Start()
	SaveCheckpoint(path, buildID string) error
	LoadCheckpoint(path, buildID string) error
	Payloads(dir string) (map[string][]byte, error)
	Done() (bool, int)
	InFlight() int // messages in port buffers + outstanding driver requests
	Close()
}

// StackAssembly adapts Stack to Assembly.
type StackAssembly struct{ *Stack }

func (a StackAssembly) Engine() *timing.SerialEngine { return a.Stack.Engine }
func (a StackAssembly) SaveCheckpoint(p, id string) error { return a.Sim.SaveCheckpoint(p, id) }
func (a StackAssembly) LoadCheckpoint(p, id string) error { return a.Sim.LoadCheckpoint(p, id) }
func (a StackAssembly) Payloads(dir string) (map[string][]byte, error) {
	m, _, err := EntityPayloads(a.Sim, dir, "digest")
	return m, err
}
func (a StackAssembly) Done() (bool, int) {
	done, errs := true, 0
	for _, d := range a.Drivers {
		if !d.Done() {
			done = false
		}
		errs += d.State.ErrCount
	}
	return done, errs
}
func (a StackAssembly) Ports() []messaging.Port { return a.AllPorts() }
func (a StackAssembly) InFlight() int {
	n := 0
	for _, p := range a.Sim.Ports() {
		n += p.NumIncoming() + p.NumOutgoing()
	}
	for _, d := range a.Drivers {
		n += len(d.State.Inflight)
	}
	return n
}

// Builder rebuilds the identical assembly. It must reset the sequential ID
// generator itself (ResetIDs) before building.
type Builder func() Assembly

// ResetIDs puts the process-global sequential ID generator back to zero so a
// rebuilt simulation hands out the same IDs.
func ResetIDs() {
	timing.GetIDGenerator()
	timing.SetIDGeneratorNextID(0)
}

// ReferenceRun runs the assembly uninterrupted.
func ReferenceRun(build Builder, dir string, limit timing.VTimeInPicoSec) (RunResult, error) {
	a := build()
	defer a.Close()
	tr := AttachEventTrace(a.Engine(), true)
	a.Start()
	if err := a.Engine().RunUntil(limit); err != nil {
		return RunResult{}, err
	}
	return finish(a, tr, dir)
}

func finish(a Assembly, tr *EventTrace, dir string) (RunResult, error) {
	p, err := a.Payloads(dir)
	if err != nil {
		return RunResult{}, fmt.Errorf("final save: %w", err)
	}
	done, errs := a.Done()
	return RunResult{Trace: tr, Payloads: p, EndTime: a.Engine().CurrentTime(),
		NextID: timing.GetIDGeneratorNextID(), Done: done, ErrCount: errs}, nil
}

// CutInfo describes the state at a cut.
type CutInfo struct {
	InFlight int
	Archive  []byte
}

// SaveAt runs a fresh assembly to t and saves a checkpoint at path.
func SaveAt(build Builder, t timing.VTimeInPicoSec, path, buildID string) (CutInfo, error) {
	a := build()
	defer a.Close()
	a.Start()
	if err := a.Engine().RunUntil(t); err != nil {
		return CutInfo{}, err
	}
	info := CutInfo{InFlight: a.InFlight()}
	if err := a.SaveCheckpoint(path, buildID); err != nil {
		return info, fmt.Errorf("save at %d: %w", t, err)
	}
	info.Archive, _ = os.ReadFile(path)
	return info, nil
}

// ResumeFrom loads the checkpoint into a fresh assembly and runs to the end.
// resaved, when non-empty, receives a second archive written right after the
// load (for the canonical-archive property).
func ResumeFrom(build Builder, path, buildID, dir string, limit timing.VTimeInPicoSec, resave bool) (RunResult, []byte, error) {
	a := build()
	defer a.Close()
	if err := a.LoadCheckpoint(path, buildID); err != nil {
		return RunResult{}, nil, fmt.Errorf("load: %w", err)
	}
	var again []byte
	if resave {
		p2 := filepath.Join(dir, "resave.tar.gz")
		if err := a.SaveCheckpoint(p2, buildID); err != nil {
			return RunResult{}, nil, fmt.Errorf("re-save: %w", err)
		}
		again, _ = os.ReadFile(p2)
		os.Remove(p2)
	}
	tr := AttachEventTrace(a.Engine(), true)
	if err := a.Engine().RunUntil(limit); err != nil {
		return RunResult{}, again, err
	}
	res, err := finish(a, tr, dir)
	return res, again, err
}

// DistinctTimes lists the distinct event times of a trace, ascending.
func DistinctTimes(tr *EventTrace) []timing.VTimeInPicoSec {
	var out []timing.VTimeInPicoSec
	for _, r := range tr.Recs {
		if len(out) == 0 || out[len(out)-1] != r.Time {
			out = append(out, r.Time)
		}
	}
	return out
}

// SuffixAfter returns the records with time > t.
func SuffixAfter(tr *EventTrace, t timing.VTimeInPicoSec) []EventRec {
	for i, r := range tr.Recs {
		if r.Time > t {
			return tr.Recs[i:]
		}
	}
	return nil
}

// FirstTraceDiff returns the index of the first difference (-1 if equal).
func FirstTraceDiff(a, b []EventRec) int {
	n := len(a)
	if len(b) < n {
		n = len(b)
	}
	for i := 0; i < n; i++ {
		if a[i] != b[i] {
			return i
		}
	}
	if len(a) != len(b) {
		return n
	}
	return -1
}
