// Package kit is the shared runner for every property check.
//
// One binary per property: main() calls kit.Main(prop). The binary runs in
// three modes:
//
//	parent:  -tier quick|thorough [-seed N]   plans batches, spawns one child
//	         process per batch (a panic/fatal/race abort in the code under
//	         test kills only that child and is attributed to the last case
//	         the child logged), aggregates, writes the evidence file, prints
//	         VIOLATION / KNOWN-FINDING / INCONCLUSIVE lines, sets the exit code.
//	child:   -child -batch <json> -out <file>  runs one batch.
//	replay:  -replay <file>                    re-executes one recorded case.
//
// Verdicts are three valued: 0 held (possibly with known findings), 1
// violation, 2 inconclusive. Wall-clock never decides a verdict; the
// watchdog firing is inconclusive.
package kit

import (
	"bufio"
	"encoding/json"
	"flag"
	"fmt"
	"hash/fnv"
	"math/rand"
	"os"
	"os/exec"
	"path/filepath"
	"regexp"
	"runtime"
	"runtime/debug"
	"sort"
	"strings"
	"sync"
	"syscall"
	"time"
)

var sigQuit = syscall.SIGQUIT

// Batch is the unit of work of one child process.
type Batch struct {
	Name   string          `json:"name"`
	Seed   int64           `json:"seed"`
	N      int             `json:"n"`
	Params json.RawMessage `json:"params,omitempty"`
	// Env is added to the child's environment (e.g. GOMAXPROCS).
	Env []string `json:"env,omitempty"`
}

// P unmarshals the batch params into v.
func (b Batch) P(v any) {
	if len(b.Params) == 0 {
		return
	}
	if err := json.Unmarshal(b.Params, v); err != nil {
		panic(err)
	}
}

// MkParams marshals v for Batch.Params.
func MkParams(v any) json.RawMessage {
	d, err := json.Marshal(v)
	if err != nil {
		panic(err)
	}
	return d
}

// Prop describes one property check.
type Prop struct {
	ID          string
	Level       string // evidence level: exploration | fault_enumeration | ...
	Rule        string // how cases are generated and what makes one non-trivial
	Assumptions []string
	// Plan lists the batches for a tier and seed. Must be a pure function
	// of (tier, seed).
	Plan func(tier string, seed int64) []Batch
	// Run executes one batch (child process).
	Run func(b Batch, r *R)
	// MustObserve names counters that have to be > 0 over the whole run;
	// otherwise the run is inconclusive (a monitor that saw nothing).
	MustObserve []string
	// RaceKey classifies a race-detector report (only used when the binary
	// is built with -race). Return ok=false to ignore a report that does not
	// concern the property.
	RaceKey func(report string) (key string, ok bool)
	// BatchTimeout overrides the per-child watchdog (default 20 min quick,
	// 90 min thorough).
	BatchTimeout func(tier string) time.Duration
	// MaxJobs caps parallel children (0 = NumCPU).
	MaxJobs int
}

// Violation is a refuting observation.
type Violation struct {
	Key     string `json:"key"` // stable class of the failure, matched against known_findings.json
	Batch   Batch  `json:"batch"`
	Case    int    `json:"case"`
	Witness json.RawMessage `json:"witness,omitempty"` // kept as raw JSON so 64-bit integers survive the parent
}

func rawJSON(v any) json.RawMessage {
	d, err := json.Marshal(v)
	if err != nil {
		d, _ = json.Marshal(map[string]string{"unmarshalable_witness": err.Error()})
	}
	return d
}

// R collects what a child observed.
type R struct {
	mu       sync.Mutex
	batch    Batch
	out      *bufio.Writer
	outF     *os.File
	only     int // replay: run only this case index (-1 = all)
	counters map[string]int64
	maxes    map[string]int64
	distinct map[uint64]struct{}
	sets     map[string]map[string]struct{}
	samples  []any
	evals    int64
	viols    int64
	violKeys map[string]int
	Tier     string
	WorkDir  string // scratch directory private to this child
}

// Case is one generated case inside a batch.
type Case struct {
	R     *R
	Index int
	Rng   *rand.Rand
	Seed  int64
	desc  any
}

func caseSeed(batchSeed int64, i int) int64 {
	h := fnv.New64a()
	fmt.Fprintf(h, "%d/%d", batchSeed, i)
	return int64(h.Sum64() & 0x7fffffffffffffff)
}

// ForEach runs f for case indexes 0..n-1 (or only the replayed one). Each
// case gets its own PRNG derived from (batch seed, index), so any case can be
// re-executed alone. The index is logged before f runs; a panic inside f is
// recorded as a violation with key "panic:<message>".
func (r *R) ForEach(n int, f func(c *Case)) {
	for i := 0; i < n; i++ {
		if r.only >= 0 && i != r.only {
			continue
		}
		s := caseSeed(r.batch.Seed, i)
		c := &Case{R: r, Index: i, Seed: s, Rng: rand.New(rand.NewSource(s))}
		r.logLine(map[string]any{"t": "case", "i": i})
		r.mu.Lock()
		r.evals++
		r.mu.Unlock()
		func() {
			defer func() {
				if e := recover(); e != nil {
					msg := fmt.Sprint(e)
					st := string(debug.Stack())
					prefix := "panic:"
					if !PanicInAkita(st) {
						prefix = "harness-panic:" // a bug of the check itself, reported loudly
					}
					c.Fail(prefix+NormalizeMsg(msg), map[string]any{
						"panic": msg, "stack": trimStack(st), "desc": c.desc})
				}
			}()
			f(c)
		}()
	}
}

// PanicInAkita reports whether the frame that raised the panic (the first
// frame after runtime's panic machinery) or a log.Panic caller belongs to the
// code under test.
func PanicInAkita(stack string) bool {
	lines := strings.Split(stack, "\n")
	seenPanic := false
	for _, l := range lines {
		if strings.HasPrefix(l, "panic(") {
			seenPanic = true
			continue
		}
		if !seenPanic || strings.HasPrefix(l, "\t") || strings.HasPrefix(l, "runtime.") ||
			strings.HasPrefix(l, "log.") || strings.HasPrefix(l, "reflect.") || strings.HasPrefix(l, "encoding/") ||
			strings.HasPrefix(l, "sync.") || strings.HasPrefix(l, "sort.") || strings.HasPrefix(l, "slices.") {
			continue
		}
		return strings.Contains(l, "sarchlab/akita")
	}
	return false
}

var reDigits = regexp.MustCompile(`0x[0-9a-fA-F]+|[0-9]+`)

// NormalizeMsg strips numbers so that a message can serve as a stable key.
func NormalizeMsg(s string) string {
	if i := strings.IndexByte(s, '\n'); i >= 0 {
		s = s[:i]
	}
	s = reDigits.ReplaceAllString(s, "N")
	if len(s) > 100 {
		s = s[:100]
	}
	return s
}

func trimStack(s string) string {
	lines := strings.Split(s, "\n")
	if len(lines) > 60 {
		lines = lines[:60]
	}
	return strings.Join(lines, "\n")
}

// Desc attaches a human readable descriptor to the case (used in witnesses
// and samples).
func (c *Case) Desc(v any) { c.desc = v }

// Nontrivial marks the case as non-trivial by the property's rule; key
// identifies the case for distinct counting.
func (c *Case) Nontrivial(key string) {
	h := fnv.New64a()
	h.Write([]byte(key))
	c.R.mu.Lock()
	c.R.distinct[h.Sum64()] = struct{}{}
	c.R.mu.Unlock()
}

// Fail records a violation.
func (c *Case) Fail(key string, witness any) {
	r := c.R
	r.mu.Lock()
	r.viols++
	r.violKeys[key]++
	n := r.violKeys[key]
	r.mu.Unlock()
	if n > 3 { // keep the log small; the count is still reported
		return
	}
	if witness == nil {
		witness = c.desc
	}
	r.logLine(map[string]any{"t": "viol", "v": Violation{Key: key, Batch: r.batch, Case: c.Index, Witness: rawJSON(witness)}})
}

// Failf is Fail with a formatted message as witness.
func (c *Case) Failf(key string, format string, a ...any) {
	c.Fail(key, map[string]any{"msg": fmt.Sprintf(format, a...), "desc": c.desc})
}

// Sample keeps up to a few written-out cases for the evidence file.
func (c *Case) Sample(v any) {
	r := c.R
	r.mu.Lock()
	defer r.mu.Unlock()
	if len(r.samples) < 2 {
		r.samples = append(r.samples, v)
	}
}

// Count adds to a named monitor counter.
func (r *R) Count(name string, d int64) {
	r.mu.Lock()
	r.counters[name] += d
	r.mu.Unlock()
}

// Max keeps the maximum of a named gauge.
func (r *R) Max(name string, v int64) {
	r.mu.Lock()
	if v > r.maxes[name] {
		r.maxes[name] = v
	}
	r.mu.Unlock()
}

// Distinct adds a member to a named set (e.g. distinct states seen); the
// evidence reports the set sizes. Members are stored as 64-bit hashes.
func (r *R) Distinct(set, member string) {
	h := fnv.New64a()
	h.Write([]byte(member))
	k := fmt.Sprintf("%016x", h.Sum64())
	r.mu.Lock()
	m := r.sets[set]
	if m == nil {
		m = map[string]struct{}{}
		r.sets[set] = m
	}
	if len(m) < 200000 {
		m[k] = struct{}{}
	}
	r.mu.Unlock()
}

// Batch returns the batch being run.
func (r *R) Batch() Batch { return r.batch }

func (r *R) logLine(v any) {
	d, err := json.Marshal(v)
	if err != nil {
		d, _ = json.Marshal(map[string]any{"t": "err", "msg": err.Error()})
	}
	r.mu.Lock()
	r.out.Write(d)
	r.out.WriteByte('\n')
	r.out.Flush()
	r.mu.Unlock()
}

type childSummary struct {
	T        string           `json:"t"`
	Evals    int64            `json:"evals"`
	Viols    int64            `json:"viols"`
	ViolKeys map[string]int   `json:"viol_keys"`
	Counters map[string]int64 `json:"counters"`
	Maxes    map[string]int64 `json:"maxes"`
	Distinct []uint64         `json:"distinct"`
	Sets     map[string][]string `json:"sets"`
	Samples  []any            `json:"samples"`
}

func (r *R) finish() {
	s := childSummary{T: "summary", Evals: r.evals, Viols: r.viols, ViolKeys: r.violKeys,
		Counters: r.counters, Maxes: r.maxes, Samples: r.samples, Sets: map[string][]string{}}
	for h := range r.distinct {
		s.Distinct = append(s.Distinct, h)
	}
	for name, m := range r.sets {
		for k := range m {
			s.Sets[name] = append(s.Sets[name], k)
		}
	}
	r.logLine(s)
	r.outF.Close()
}

func newR(b Batch, outPath string, only int, tier, work string) *R {
	f, err := os.Create(outPath)
	if err != nil {
		panic(err)
	}
	return &R{batch: b, outF: f, out: bufio.NewWriter(f), only: only,
		counters: map[string]int64{}, maxes: map[string]int64{}, distinct: map[uint64]struct{}{},
		sets: map[string]map[string]struct{}{}, violKeys: map[string]int{}, Tier: tier, WorkDir: work}
}

// ---------------------------------------------------------------- parent

type finding struct {
	Property    string `json:"property"`
	Key         string `json:"key"`
	Status      string `json:"status"` // known | fixed
	Commit      string `json:"commit,omitempty"`
	Description string `json:"description"`
}

func loadFindings(path, id string) []finding {
	d, err := os.ReadFile(path)
	if err != nil {
		return nil
	}
	var all struct {
		Findings []finding `json:"findings"`
	}
	if err := json.Unmarshal(d, &all); err != nil {
		fmt.Fprintf(os.Stderr, "known_findings.json unreadable: %v\n", err)
		return nil
	}
	var out []finding
	for _, f := range all.Findings {
		if f.Property == id && f.Status == "known" {
			out = append(out, f)
		}
	}
	return out
}

func matchKey(pattern, key string) bool {
	if strings.HasSuffix(pattern, "*") {
		return strings.HasPrefix(key, strings.TrimSuffix(pattern, "*"))
	}
	return pattern == key
}

// Main is the entry point of every property binary.
func Main(p Prop) {
	var (
		tier     = flag.String("tier", "quick", "quick|thorough")
		seed     = flag.Int64("seed", envInt("VERIF_SEED", 1), "seed")
		child    = flag.Bool("child", false, "child mode")
		batchJS  = flag.String("batch", "", "child: batch json")
		outPath  = flag.String("out", "", "child: result file")
		only     = flag.Int("only", -1, "child: run only this case index")
		work     = flag.String("work", "", "scratch dir")
		replay   = flag.String("replay", "", "replay file")
		evidence = flag.String("evidence", "", "evidence file")
		replays  = flag.String("replays", "", "replay dir")
		findings = flag.String("findings", "", "known_findings.json")
		jobs     = flag.Int("jobs", runtime.NumCPU(), "parallel children")
		raceMode = flag.Bool("race", false, "binary was built with -race")
	)
	flag.Parse()
	if *child {
		var b Batch
		if err := json.Unmarshal([]byte(*batchJS), &b); err != nil {
			fmt.Fprintln(os.Stderr, "bad batch:", err)
			os.Exit(3)
		}
		os.MkdirAll(*work, 0o755)
		os.Chdir(*work)
		r := newR(b, *outPath, *only, *tier, *work)
		p.Run(b, r)
		r.finish()
		return
	}
	if *work == "" {
		*work = filepath.Join(os.TempDir(), fmt.Sprintf("verif-%s-%d", p.ID, os.Getpid()))
	}
	os.RemoveAll(*work)
	os.MkdirAll(*work, 0o755)
	defer os.RemoveAll(*work)

	if *replay != "" {
		os.Exit(runReplay(p, *replay, *work, *raceMode))
	}
	code := runParent(p, *tier, *seed, *work, *evidence, *replays, *findings, *jobs, *raceMode)
	os.RemoveAll(*work)
	os.Exit(code)
}

func envInt(name string, def int64) int64 {
	if s := os.Getenv(name); s != "" {
		var v int64
		if _, err := fmt.Sscan(s, &v); err == nil {
			return v
		}
	}
	return def
}

type childResult struct {
	batch    Batch
	summary  *childSummary
	viols    []Violation
	lastCase int
	crashed  bool
	timedOut bool
	stderr   string
	races    []string
}

func runChild(p Prop, b Batch, idx int, tier, work string, only int, race bool) childResult {
	self, _ := os.Executable()
	dir := filepath.Join(work, fmt.Sprintf("b%04d", idx))
	os.MkdirAll(dir, 0o755)
	out := filepath.Join(dir, "out.jsonl")
	errPath := filepath.Join(dir, "stderr.txt")
	bj, _ := json.Marshal(b)
	to := 20 * time.Minute
	if tier == "thorough" {
		to = 90 * time.Minute
	}
	if p.BatchTimeout != nil {
		to = p.BatchTimeout(tier)
	}
	args := []string{"-child", "-tier", tier, "-batch", string(bj), "-out", out, "-work", filepath.Join(dir, "w"), "-only", fmt.Sprint(only)}
	cmd := exec.Command(self, args...)
	ef, _ := os.Create(errPath)
	cmd.Stdout = ef
	cmd.Stderr = ef
	cmd.Env = append(os.Environ(), b.Env...)
	if race {
		cmd.Env = append(cmd.Env, "GORACE=halt_on_error=0 history_size=3 log_path="+filepath.Join(dir, "race"))
	}
	res := childResult{batch: b, lastCase: -1}
	if err := cmd.Start(); err != nil {
		res.crashed = true
		res.stderr = err.Error()
		return res
	}
	done := make(chan error, 1)
	go func() { done <- cmd.Wait() }()
	var werr error
	select {
	case werr = <-done:
	case <-time.After(to):
		res.timedOut = true
		cmd.Process.Signal(sigQuit)
		select {
		case <-done:
		case <-time.After(20 * time.Second):
			cmd.Process.Kill()
			<-done
		}
	}
	ef.Close()
	if f, err := os.Open(out); err == nil {
		sc := bufio.NewScanner(f)
		sc.Buffer(make([]byte, 1<<20), 1<<30)
		for sc.Scan() {
			line := sc.Bytes()
			var head struct {
				T string `json:"t"`
				I int    `json:"i"`
			}
			if json.Unmarshal(line, &head) != nil {
				continue
			}
			switch head.T {
			case "case":
				res.lastCase = head.I
			case "viol":
				var v struct {
					V Violation `json:"v"`
				}
				if json.Unmarshal(line, &v) == nil {
					res.viols = append(res.viols, v.V)
				}
			case "summary":
				var s childSummary
				if json.Unmarshal(line, &s) == nil {
					res.summary = &s
				}
			}
		}
		f.Close()
	}
	if d, err := os.ReadFile(errPath); err == nil {
		res.stderr = tail(string(d), 400000)
	}
	if res.summary == nil && !res.timedOut {
		res.crashed = true
	}
	_ = werr
	if race {
		matches, _ := filepath.Glob(filepath.Join(dir, "race.*"))
		for _, m := range matches {
			d, _ := os.ReadFile(m)
			res.races = append(res.races, splitRaceReports(string(d))...)
		}
	}
	os.RemoveAll(filepath.Join(dir, "w"))
	return res
}

func tail(s string, n int) string {
	if len(s) <= n {
		return s
	}
	// keep the head (panic message) and the tail
	return s[:n/2] + "\n...\n" + s[len(s)-n/2:]
}

func splitRaceReports(s string) []string {
	var out []string
	parts := strings.Split(s, "==================")
	for _, p := range parts {
		if strings.Contains(p, "WARNING: DATA RACE") {
			out = append(out, strings.TrimSpace(p))
		}
	}
	return out
}

var reFatal = regexp.MustCompile(`(?m)^(panic: .*|fatal error: .*)$`)

func crashKey(stderr string) string {
	m := reFatal.FindString(stderr)
	if m == "" {
		return "crash:unknown"
	}
	return "crash:" + NormalizeMsg(m)
}

func runParent(p Prop, tier string, seed int64, work, evidencePath, replayDir, findingsPath string, jobs int, race bool) int {
	start := time.Now()
	batches := p.Plan(tier, seed)
	if p.MaxJobs > 0 && jobs > p.MaxJobs {
		jobs = p.MaxJobs
	}
	results := make([]childResult, len(batches))
	sem := make(chan struct{}, jobs)
	var wg sync.WaitGroup
	for i := range batches {
		wg.Add(1)
		sem <- struct{}{}
		go func(i int) {
			defer wg.Done()
			defer func() { <-sem }()
			results[i] = runChild(p, batches[i], i, tier, work, -1, race)
		}(i)
	}
	wg.Wait()

	known := loadFindings(findingsPath, p.ID)
	var (
		evals, nviol  int64
		counters      = map[string]int64{}
		maxes         = map[string]int64{}
		distinct      = map[uint64]struct{}{}
		sets          = map[string]map[string]struct{}{}
		samples       []any
		violations    []Violation
		inconclusive  []string
		knownObserved = map[string]int{}
		raceReports   int
		raceKeys      = map[string]int{}
	)
	for i, res := range results {
		if res.summary != nil {
			evals += res.summary.Evals
			for k, v := range res.summary.Counters {
				counters[k] += v
			}
			for k, v := range res.summary.Maxes {
				if v > maxes[k] {
					maxes[k] = v
				}
			}
			for _, h := range res.summary.Distinct {
				distinct[h] = struct{}{}
			}
			for name, ms := range res.summary.Sets {
				if sets[name] == nil {
					sets[name] = map[string]struct{}{}
				}
				for _, m := range ms {
					sets[name][m] = struct{}{}
				}
			}
			if len(samples) < 3 {
				samples = append(samples, res.summary.Samples...)
			}
			// violations beyond the first 3 per key are only counted
			for k, n := range res.summary.ViolKeys {
				_ = k
				nviol += int64(n)
			}
		} else {
			evals += int64(res.lastCase + 1)
		}
		violations = append(violations, res.viols...)
		if res.timedOut {
			inconclusive = append(inconclusive, fmt.Sprintf("watchdog fired in batch %d (%s) at case %d", i, res.batch.Name, res.lastCase))
			saveText(replayDir, fmt.Sprintf("%s-watchdog-b%d.txt", p.ID, i), res.stderr)
		} else if res.crashed {
			v := Violation{Key: crashKey(res.stderr), Batch: res.batch, Case: res.lastCase,
				Witness: rawJSON(map[string]any{"stderr": res.stderr})}
			violations = append(violations, v)
			nviol++
		}
		for _, rep := range res.races {
			raceReports++
			key, ok := "race:"+raceSignature(rep), true
			if p.RaceKey != nil {
				key, ok = p.RaceKey(rep)
			}
			if !ok {
				counters["race_reports_ignored"]++
				continue
			}
			raceKeys[key]++
			if raceKeys[key] == 1 {
				violations = append(violations, Violation{Key: key, Batch: res.batch, Case: -1,
					Witness: rawJSON(map[string]any{"race_report": tail(rep, 6000)})})
			}
			nviol++
		}
	}
	if race {
		counters["race_reports"] = int64(raceReports)
		counters["race_reports_distinct"] = int64(len(raceKeys))
	}

	// classify violations
	var fresh []Violation
	for _, v := range violations {
		isKnown := false
		for _, k := range known {
			if matchKey(k.Key, v.Key) {
				knownObserved[k.Key]++
				isKnown = true
				break
			}
		}
		if !isKnown {
			fresh = append(fresh, v)
		}
	}
	for _, name := range p.MustObserve {
		if counters[name] == 0 && maxes[name] == 0 && len(sets[name]) == 0 {
			inconclusive = append(inconclusive, "monitor counter "+name+" is zero: the workload never reached what it is meant to observe")
		}
	}
	if evals == 0 {
		inconclusive = append(inconclusive, "no case was executed")
	}

	code := 0
	for _, k := range known {
		fmt.Printf("KNOWN-FINDING: property=%s %s — %s (observed %d times in this run)\n", p.ID, k.Key, k.Description, knownObserved[k.Key])
	}
	seenKey := map[string]int{}
	for _, v := range fresh {
		seenKey[v.Key]++
		if seenKey[v.Key] > 2 {
			continue
		}
		path := saveReplay(replayDir, p.ID, tier, v, len(seenKey), seenKey[v.Key])
		fmt.Printf("VIOLATION property=%s replay=%s key=%s\n", p.ID, path, v.Key)
		code = 1
	}
	if code == 0 && len(inconclusive) > 0 {
		for _, s := range inconclusive {
			fmt.Printf("INCONCLUSIVE property=%s reason=%s\n", p.ID, s)
		}
		code = 2
	}

	cov := map[string]any{
		"evaluations":         evals,
		"distinct_nontrivial": len(distinct),
		"rule":                p.Rule,
		"samples":             samples,
		"exhaustive":          false,
		"batches":             len(batches),
		"monitor_counters":    counters,
	}
	if len(maxes) > 0 {
		cov["monitor_maxima"] = maxes
	}
	if len(sets) > 0 {
		ds := map[string]int{}
		for k, m := range sets {
			ds[k] = len(m)
		}
		cov["distinct_observed"] = ds
	}
	if len(knownObserved) > 0 {
		cov["known_findings_observed"] = knownObserved
	}
	if len(inconclusive) > 0 {
		cov["inconclusive"] = inconclusive
	}
	if len(samples) == 0 {
		cov["samples"] = []any{"(no sample recorded)"}
	}
	ev := map[string]any{
		"property_id": p.ID,
		"tier":        tier,
		"seed":        seed,
		"level":       p.Level,
		"coverage":    cov,
		"assumptions": p.Assumptions,
		"wall_s":      time.Since(start).Seconds(),
		"violations":  len(fresh),
		"verdict":     []string{"held", "violated", "inconclusive"}[code],
	}
	if evidencePath != "" {
		os.MkdirAll(filepath.Dir(evidencePath), 0o755)
		d, _ := json.MarshalIndent(ev, "", " ")
		os.WriteFile(evidencePath, append(d, '\n'), 0o644)
	}
	verdict := []string{"HELD", "VIOLATED", "INCONCLUSIVE"}[code]
	fmt.Printf("%s %s tier=%s seed=%d evaluations=%d distinct_nontrivial=%d violations=%d wall=%.1fs counters=%s\n",
		p.ID, verdict, tier, seed, evals, len(distinct), len(fresh), time.Since(start).Seconds(), compactCounters(counters))
	_ = nviol
	return code
}

func compactCounters(m map[string]int64) string {
	keys := make([]string, 0, len(m))
	for k := range m {
		keys = append(keys, k)
	}
	sort.Strings(keys)
	var sb strings.Builder
	for i, k := range keys {
		if i > 0 {
			sb.WriteByte(',')
		}
		fmt.Fprintf(&sb, "%s=%d", k, m[k])
	}
	return sb.String()
}

var reFrame = regexp.MustCompile(`(?m)^  ([^\s(]+)\(`)

// raceSignature: de-duplicate by the innermost akita frames of both stacks
// with line numbers stripped.
func raceSignature(rep string) string {
	var fr []string
	for _, blk := range strings.Split(rep, "\n\n") {
		m := reFrame.FindAllStringSubmatch(blk, -1)
		for _, x := range m {
			if strings.Contains(x[1], "sarchlab/akita") {
				fr = append(fr, x[1][strings.LastIndex(x[1], "/")+1:])
				break
			}
		}
		if len(fr) == 2 {
			break
		}
	}
	sort.Strings(fr)
	return strings.Join(fr, "|")
}

// RaceSignature is exported for RaceKey implementations.
func RaceSignature(rep string) string { return raceSignature(rep) }

func saveText(dir, name, text string) string {
	if dir == "" {
		return ""
	}
	os.MkdirAll(dir, 0o755)
	p := filepath.Join(dir, name)
	os.WriteFile(p, []byte(text), 0o644)
	return p
}

func saveReplay(dir, id, tier string, v Violation, a, b int) string {
	if dir == "" {
		dir = os.TempDir()
	}
	os.MkdirAll(dir, 0o755)
	p := filepath.Join(dir, fmt.Sprintf("%s-%s-%d-%d-%d.json", id, tier, time.Now().UnixNano()%1000000, a, b))
	d, _ := json.MarshalIndent(map[string]any{"property": id, "tier": tier, "violation": v}, "", " ")
	os.WriteFile(p, d, 0o644)
	return p
}

func runReplay(p Prop, path, work string, race bool) int {
	d, err := os.ReadFile(path)
	if err != nil {
		fmt.Println("cannot read replay:", err)
		return 2
	}
	var rp struct {
		Tier      string    `json:"tier"`
		Violation Violation `json:"violation"`
	}
	if err := json.Unmarshal(d, &rp); err != nil {
		fmt.Println("bad replay file:", err)
		return 2
	}
	res := runChild(p, rp.Violation.Batch, 0, rp.Tier, work, rp.Violation.Case, race)
	code := 0
	for _, v := range res.viols {
		dd, _ := json.MarshalIndent(v, "", " ")
		fmt.Printf("REPRODUCED key=%s\n%s\n", v.Key, dd)
		code = 1
	}
	if res.crashed {
		fmt.Printf("REPRODUCED key=%s (child crashed)\n%s\n", crashKey(res.stderr), res.stderr)
		code = 1
	}
	for _, rep := range res.races {
		fmt.Printf("RACE REPORT\n%s\n", rep)
		code = 1
	}
	if os.Getenv("VERIF_SHOW_CHILD_OUTPUT") != "" {
		fmt.Printf("---- child output ----\n%s\n", res.stderr)
	}
	if code == 0 {
		fmt.Println("replay: no violation reproduced")
	}
	return code
}
