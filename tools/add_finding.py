#!/usr/bin/env python3
# usage: add_finding.py <property> <key> <fixed|known> <commit-or-> <description>
import json,sys
p='/verif/known_findings.json'
d=json.load(open(p))
e={"property":sys.argv[1],"key":sys.argv[2],"status":sys.argv[3],"description":sys.argv[5]}
if sys.argv[4] != '-': e["commit"]=sys.argv[4]
d['findings'].append(e)
json.dump(d,open(p,'w'),indent=1)
