#!/usr/bin/env python3
"""Regenerates /verif/MANIFEST.json from the table below + which props/ directories exist.
A property is claimed only when its check exists (harness/props/<id>/); everything else is
listed under not_applicable with the reason."""
import json, os, subprocess
V = os.path.dirname(os.path.dirname(os.path.abspath(__file__)))
RACE = {"C04", "C05", "C35", "C40", "C41"}
# id: (category, level text, level note, technique, design_ref)
T = {}
for f in os.listdir(os.path.join(V, "tools", "manifest")):
    if f.endswith(".json"):
        d = json.load(open(os.path.join(V, "tools", "manifest", f)))
        T[f[:-5]] = (d["category"], d["text"], d["note"], d["technique"])
props = [json.loads(l) for l in open(os.path.join(V, "properties.jsonl"))]
have = {d.upper() for d in os.listdir(os.path.join(V, "harness", "props"))}
accepted = {l.strip() for l in open(os.path.join(V, "tools", "claimed.txt")) if l.strip()}
have &= accepted
na_reasons = {}
p = os.path.join(V, "tools", "not_applicable.json")
if os.path.exists(p): na_reasons = json.load(open(p))
checks, na = [], []
for pr in props:
    i = pr["id"]
    if i in have and i in T and i not in na_reasons:
        cat, text, note, tech = T[i]
        checks.append({
            "property_id": i,
            "quick_cmd": f"./check {i} quick",
            "thorough_cmd": f"./check {i} thorough",
            "evidence_file": f"/verif/evidence/{i}.json",
            "replay_cmd_template": f"./check {i} replay {{path}}",
            "engine": "vcheck",
            "level_claimed": {"category": cat, "text": text, "design_ref": f"DESIGN.md §3 {i}"},
            "level_note": note,
            "technique": tech,
        })
    else:
        na.append({"property_id": i, "reason": na_reasons.get(i, "no check implemented yet in this round; not claimed (the runtime-monitoring design for it is in DESIGN.md §3)")})
hooks_commits = []
hp = os.path.join(V, "tools", "hook_commits.txt")
if os.path.exists(hp): hooks_commits = [l.split()[0] for l in open(hp) if l.strip()]
m = {
 "version": 1,
 "setup_cmd": "./check --setup",
 "hooks": {
  "guard": "verif",
  "enable": "go build -tags verif (plus -race for " + " ".join(sorted(RACE)) + "); the harness module replaces github.com/sarchlab/akita/v5 with /repo so every check compiles /repo's current working tree",
  "baseline_off_cmd": "cd /repo && GOFLAGS=-mod=mod GOPROXY=off go test -json -vet=off -count=1 -timeout 25m ./...",
  "source_commits": hooks_commits,
  "add_only": True,
 },
 "engines": [{"name": "vcheck", "path": "/verif/harness", "serves_properties": [c["property_id"] for c in checks],
   "kind_free_text": "Go harness: one binary per property (harness/props/<id>), built against /repo's working tree; a parent process plans PRNG-seeded batches, runs each in a child process, monitors/oracles run inside the child next to the real code; parent aggregates evidence and classifies violations against known_findings.json"}],
 "checks": checks,
 "not_applicable": na,
 "notes": "Technique family: runtime monitoring. Exit codes: 0 held on everything explored, 1 violation (VIOLATION line + replay file), 2 inconclusive (INCONCLUSIVE line). VERIF_SEED selects the case list. See DESIGN.md.",
}
json.dump(m, open(os.path.join(V, "MANIFEST.json"), "w"), indent=1)
print("claimed", len(checks), "not_applicable", len(na))
