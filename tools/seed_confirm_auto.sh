#!/bin/bash
# usage: seed_confirm_auto.sh <srcdir> <name>  — finds the demo package (first line comment) and test names automatically
SRC=$1; NAME=$2
f=$SRC/demo_test.go
[ -f "$f" ] || { echo "$NAME: no demo_test.go"; exit 1; }
pkg=$(head -5 "$f" | grep -oE '(mem|timing|modeling|messaging|queueing|simulation|tracing|noc|datarecording|daisen2|sourcefs|monitoring2|examples)(/[A-Za-z0-9_]+)*' | head -1)
pkg=${pkg%/}
# strip a trailing file name component if the comment named a file
case "$pkg" in *_test) pkg=$(dirname $pkg);; esac
[ -d /repo/$pkg ] || pkg=$(dirname $pkg)
rx=$(grep -oE '^func (Test[A-Za-z0-9_]+)' "$f" | awk '{print $2}' | paste -sd'|')
[ -n "$pkg" ] && [ -n "$rx" ] || { echo "$NAME: cannot determine package ($pkg) or tests ($rx)"; exit 1; }
exec /verif/tools/seed_confirm.sh "$SRC" "$pkg" "^($rx)\$" "$NAME"
