#!/bin/bash
# usage: apply_fix.sh <patch> "<commit message>" <pkg>...   (run from anywhere)
set -e
P=$1; MSG=$2; shift 2
cd /repo
git apply --check "$P"
git apply "$P"
export GOFLAGS=-mod=mod GOPROXY=off
go build ./... 
if [ $# -gt 0 ]; then go test -count=1 "$@" 2>&1 | grep -v "no test files" | tail -6; fi
git add -A
git commit -qm "$MSG"
git log --format=%h -1
