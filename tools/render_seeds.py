#!/usr/bin/env python3
import json,os,re
V=os.path.dirname(os.path.dirname(os.path.abspath(__file__)))
seeds=json.load(open(os.path.join(V,'tools','seeds.json')))
rows=["| seed | property | change | needs | first result | now caught by | strengthening |","|---|---|---|---|---|---|---|"]
for s in seeds:
    rows.append("| %s | %s | %s | %s | %s | %s | %s |"%(s['name'],s['property'],s['what'],s['needs'],s['first_result'],', '.join(s['caught_by']) or '—',s.get('strengthened') or '—'))
    d=os.path.join(V,'seeded',s['name'])
    if os.path.isdir(d):
        conf=open(os.path.join(d,'confirm.txt')).read() if os.path.exists(os.path.join(d,'confirm.txt')) else ''
        json.dump({"property":s['property'],"breaks":s['what'],"needs_to_manifest":s['needs'],"caught_by_quick_checks":s['caught_by'],
                   "first_result":s['first_result'],"strengthening":s.get('strengthened',''),
                   "what_was_run":"tools/seed_confirm.sh (demo with/without the change, go build, pinned baseline with the change) and tools/seed_eval.sh (quick checks against a scratch worktree with the change); see confirm.txt",
                   "confirm":conf[:600]}, open(os.path.join(d,'meta.json'),'w'), indent=1)
tab="\n".join(rows)
p=os.path.join(V,'DESIGN.md'); s=open(p).read()
if 'SEEDTABLE' in s: s=s.replace('SEEDTABLE','<!-- seedtable -->\n'+tab+'\n<!-- /seedtable -->')
else: s=re.sub(r'<!-- seedtable -->.*<!-- /seedtable -->','<!-- seedtable -->\n'+tab.replace('\\','\\\\')+'\n<!-- /seedtable -->',s,flags=re.S)
open(p,'w').write(s)
print(len(seeds),"seeds rendered")
