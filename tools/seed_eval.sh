#!/bin/bash
# usage: seed_eval.sh <srcdir-with-patch.diff> <ID> [more IDs...]
# Applies the seeded change to a scratch worktree of /repo HEAD, checks it builds, runs the demonstration
# if it is a demo_test.go with a "// copy to <pkg>" first line, then runs the quick checks against the tree.
SRC=$1; shift
WT=/tmp/se-$$
git -C /repo worktree add --detach $WT HEAD >/dev/null 2>&1 || exit 3
cleanup() { git -C /repo worktree remove --force $WT >/dev/null 2>&1; }
trap cleanup EXIT
export GOFLAGS=-mod=mod GOPROXY=off
( cd $WT && git apply "$SRC/patch.diff" ) || { echo "PATCH DOES NOT APPLY"; exit 3; }
( cd $WT && go build ./... ) || { echo "DOES NOT BUILD"; exit 3; }
echo "builds: yes; files: $(cd $WT && git diff --stat | tail -1)"
if [ -f "$SRC/demo_test.go" ]; then
  pkg=$(head -3 "$SRC/demo_test.go" | grep -oE '[a-z0-9_/]+/?[A-Za-z0-9_]*' | grep / | head -1)
  echo "demo package guess: $pkg"
fi
for id in "$@"; do
  VERIF_REPO=$WT /verif/check $id quick 2>&1 | grep -v "^KNOWN" | tail -4 | cut -c1-260
done
