#!/bin/bash
# Runs the repository's own test suite with the verif guard OFF and compares the set of passing
# tests with /root/.vp/BASELINE.json (stable_pass). Prints missing tests; exit 0 when all 539 pass.
cd /repo
export GOFLAGS=-mod=mod GOPROXY=off
OUT=${1:-/tmp/baseline-$$.json}
go test -json -vet=off -count=1 -timeout 25m ./... > "$OUT" 2>/dev/null
python3 - "$OUT" <<'PY'
import json,sys
passed=set()
for l in open(sys.argv[1]):
    try: e=json.loads(l)
    except: continue
    if e.get('Action')=='pass' and e.get('Test'):
        passed.add(e['Package']+'::'+e['Test'])
want=set(json.load(open('/root/.vp/BASELINE.json'))['stable_pass'])
missing=sorted(want-passed)
print("baseline tests passing: %d / %d" % (len(want&passed), len(want)))
for m in missing: print("MISSING", m)
sys.exit(1 if missing else 0)
PY
rc=$?
rm -f "$OUT"
exit $rc
