#!/bin/bash
# usage: seed_confirm.sh <srcdir> <pkgdir-for-demo> <TestRegex> <outdir-name>
# Confirms a seeded change: demo passes without / fails with the change; repository builds; the pinned
# baseline tests (BASELINE.json stable_pass) all still pass with the change. Writes seeded/<name>/.
SRC=$1; PKG=$2; RX=$3; NAME=$4
WT=/tmp/sc-$$
git -C /repo worktree add --detach $WT HEAD >/dev/null 2>&1 || exit 3
trap 'git -C /repo worktree remove --force $WT >/dev/null 2>&1' EXIT
export GOFLAGS=-mod=mod GOPROXY=off
cd $WT
NEW=0; [ -d "$PKG" ] || { mkdir -p "$PKG"; NEW=1; }
cp "$SRC/demo_test.go" "$PKG/zz_seed_demo_test.go"
go test -vet=off -count=1 -run "$RX" ./$PKG/ > /tmp/sc-$$.clean 2>&1; clean_rc=$?
git apply "$SRC/patch.diff" || { echo "patch does not apply"; exit 3; }
go build ./... || { echo "does not build"; exit 3; }
go test -vet=off -count=1 -run "$RX" ./$PKG/ > /tmp/sc-$$.patched 2>&1; patched_rc=$?
rm -f "$PKG/zz_seed_demo_test.go"; [ $NEW = 1 ] && rm -rf "$PKG"
go test -json -vet=off -count=1 -timeout 25m ./... > /tmp/sc-$$.json 2>/dev/null
suite=$(python3 - /tmp/sc-$$.json <<'PY'
import json,sys
passed=set()
for l in open(sys.argv[1]):
    try: e=json.loads(l)
    except: continue
    if e.get('Action')=='pass' and e.get('Test'): passed.add(e['Package']+'::'+e['Test'])
want=set(json.load(open('/root/.vp/BASELINE.json'))['stable_pass'])
print("%d/%d" % (len(want&passed), len(want)))
PY
)
echo "$NAME: demo clean rc=$clean_rc patched rc=$patched_rc baseline=$suite"
D=/verif/seeded/$NAME; mkdir -p $D
cp "$SRC/patch.diff" $D/; cp "$SRC/demo_test.go" $D/; [ -f "$SRC/notes.md" ] && cp "$SRC/notes.md" $D/
cat > $D/confirm.txt <<EOT
demo (copied to $PKG/, go test -run '$RX' ./$PKG/): without the change rc=$clean_rc (0 = pass), with the change rc=$patched_rc (non-zero = fails)
go build ./... with the change: ok
pinned baseline tests passing with the change: $suite
--- demo output with the change (tail) ---
$(tail -15 /tmp/sc-$$.patched)
EOT
rm -f /tmp/sc-$$.*
