#!/bin/bash
# usage: mutant.sh <patchfile> <ID>...   applies the patch to a scratch worktree of /repo HEAD and runs quick checks against it
P=$1; shift
WT=/tmp/mut-$$
git -C /repo worktree add --detach $WT HEAD >/dev/null 2>&1 || exit 3
( cd $WT && git apply "$P" ) || { echo "patch does not apply"; git -C /repo worktree remove --force $WT; exit 3; }
for id in "$@"; do
  VERIF_REPO=$WT /verif/check $id quick 2>&1 | grep -v "^KNOWN" | tail -4 | cut -c1-230
done
git -C /repo worktree remove --force $WT
