add("C42", "exploration",
    "Differential monitoring of the real Freq methods against a math/big reference on PRNG-drawn (frequency, time, n) points concentrated on period boundaries and on the top of the 64-bit range; held means no judged result differed on the points reported in the evidence.",
    "Trusts math/big and the harness generators; results that do not fit in 64 bits are not judged.",
    "differential oracle (math/big reference) over generated inputs")
